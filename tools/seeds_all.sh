#!/bin/bash
# tools/seeds_all.sh "<seeds>" [Cxx ...]: quick tier of every (or the named) check at several VERIF_SEED values;
# prints one line per run and every VIOLATION / HARNESS line (a check must be quiet on the unchanged tree at any seed)
cd "$(dirname "$(readlink -f "$0")")/.." || exit 2
[ -d .deps/mpmath ] || ./setup.sh > /dev/null 2>&1
SEEDS=${1:-"2 3 4 5 6"}; shift
L=${*:-C01 C02 C03 C04 C05 C06 C07 C08 C09 C10 C11 C12 C13 C14 C15 C16 C17 C18 C19 C20}
export VERIF_OUT_DIR=${VERIF_OUT_DIR:-$PWD/.scratch/seeds}
mkdir -p "$VERIF_OUT_DIR"
for s in $SEEDS; do for c in $L; do
  out=$(VERIF_SEED=$s ./vcheck $c quick 2>&1); rc=$?
  echo "seed=$s $c rc=$rc $(echo "$out" | grep -m1 'evaluations=' | sed 's/.*evaluations=/evaluations=/')"
  echo "$out" | grep "VIOLATION\|HARNESS" | head -4
  [ $rc -ne 0 ] && echo "$out" | grep "^  " | head -4
done; done
