#!/bin/bash
# tools/thorough_all.sh [Cxx ...]: thorough tier of every (or the named) check, one after the other; summary lines only
cd "$(dirname "$(readlink -f "$0")")/.." || exit 2
[ -d .deps/mpmath ] || ./setup.sh > /dev/null 2>&1
L=${*:-C01 C02 C03 C04 C05 C06 C07 C08 C09 C10 C11 C12 C13 C14 C15 C16 C17 C18 C19 C20}
for c in $L; do
  t0=$(date +%s)
  ./vcheck $c thorough > thorough-$c.log 2>&1; rc=$?
  echo "$c rc=$rc wall=$(( $(date +%s) - t0 ))s $(grep -m1 'evaluations=' thorough-$c.log)"
  grep "VIOLATION\|KNOWN-FINDING\|HARNESS" thorough-$c.log | head -5
done
