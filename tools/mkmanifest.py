#!/venv/bin/python
"""Regenerates MANIFEST.json from the table below and validates it."""
import json
import sys
from pathlib import Path

VERIF = Path(__file__).resolve().parent.parent
sys.path.insert(0, str(VERIF))
sys.path.insert(0, str(VERIF / ".deps"))

CHECKS = {
    # id: (technique, level text, level note, design ref)
    "C05": ("exhaustive small-alphabet enumeration + Hypothesis random sequences; "
            "differential C vs Python vs independent ASTM E1049 reference; metamorphic "
            "negate/shift/scale; ASan/UBSan build",
            "Generated-input search: all sequences up to length 9 over {0..3} (7 over {0..5}) "
            "and thousands of random sequences are counted by c_rain (compiled from the "
            "working tree), py_rain and an independent transcription of the ASTM procedure; "
            "tables, extraction order and offsets must agree bit for bit. Exhaustive on the "
            "small finite sub-domain, sampled beyond it.",
            "Trusts the ASTM transcription in refs/astm_rainflow.py (explicit start marker) and gcc; "
            "numba-jitted variant not executable here (numba absent).", "3/C05"),
}
CHECKS["C12"] = (
    "exhaustive decade x rounding-sensitive-mantissa grid + Hypothesis doubles/cards; exact-rational "
    "accuracy oracle; write->read round trip; fixed vs independently written comma form",
    "Generated-input search: ~1e5 (thorough) doubles per formatter from an enumerated decade x mantissa "
    "grid plus Hypothesis floats at the formatter branch thresholds; field width, Nastran syntax, exact "
    "rational error against the best digits the width allows, and nas_sscanf == correctly rounded text. "
    "Cards of 1..60 mixed fields round-trip through wtcard8/16/16d and rdcards, and an independently "
    "written comma form must read identically.",
    "Trusts Python Fraction/Decimal/float(); 'best precision' is computed for normalised-mantissa "
    "renderings; values rounding to 1e7/1e15 print without a decimal point (observation O1, numerically fine).",
    "3/C12")
CHECKS["C04"] = (
    "Hypothesis-generated files (shape/sparsity/value-class/input-type/option grid) + enumerated boundary "
    "shapes; write->read round-trip oracle with exact-rational ASCII tolerance",
    "Generated-input search over files of 1..5 matrices x binary/ascii x endian x dense/bigmat/nonbigmat x "
    "digits x ndarray/coo/csr/csc/int/float32/1-D inputs x names/forms, value classes spanning the whole "
    "double range (3-digit exponents, subnormals), plus the switch-point shapes (3000-value columns, "
    "16384-value strings, 65536 rows). Every file is read back through list/dct/read/dir, dense, sparse, "
    "auto and callable modes and name subsets; binary must be bit-exact, ASCII within half a unit of the "
    "last requested digit in exact arithmetic.",
    "Trusts numpy/scipy.sparse conversions; form inference on nearly-symmetric matrices accepts 1 or 6; "
    "values whose decimal rounding exceeds DBL_MAX are out of domain.", "3/C04")
CHECKS["C07"] = (
    "Hypothesis-generated matrices by structure class and norm (atoms at every Pade/squaring switch); "
    "reference = 40-digit mpmath exponential of the augmented block matrix; differential between all "
    "getEPQ variants; c2d/d2c inverse pairs, exact sampled response, Tustin transfer-function identity",
    "Generated-input search over dense/triangular/diagonal/Jordan/nilpotent/singular/zero/stable/stiff/skew "
    "matrices with ||Ah||_1 from 1e-6 to 1e3 on both sides of every algorithm switch, order 0/1, B "
    "None/matrix/half. E, I1, I2 and E,P,Q of expmint/getEPQ/getEPQ1/getEPQ2/getEPQ_pow are compared with "
    "a 40-digit reference (tolerance 200*eps*(1+||Ah||)*scale, never tighter than 10x scipy.linalg.expm's "
    "own error); SSModel conversions are checked as inverse pairs, against exactly sampled responses and "
    "through the bilinear-transform identity.",
    "Trusts mpmath.expm at 40 digits and scipy.linalg.expm_cond for the condition number of the exponential; "
    "known findings F11 (I2 in the Pade-13 branch for ill-conditioned A) and F40 (over-scaling on strongly "
    "non-normal matrices with ||Ah|| > 50, bounded by 10x the tolerance) are excluded by signature and counted.", "3/C07")
CHECKS["C01"] = (
    "Hypothesis-generated modal systems by damping regime (atoms on every coefficient-formula switch) in "
    "diagonal, non-proportionally damped and physically coupled forms; reference = 40-digit mpmath exact "
    "one-step map propagated in mpmath; differential SolveUnc vs SolveExp2 vs SolveExp1; option metamorphics",
    "Generated-input search: each case is a list of modes with regime labels (undamped / damped rigid body "
    "around both cut-offs, under-, near-critically, critically and over-damped, residual flexibility), "
    "random forces and initial conditions, order 0/1 and every option combination (m None/1-D/2-D, "
    "explicit/auto rb, permuted order, static_ic, pre_eig on physically coupled matrices). d, v, a of all "
    "three exact solvers are compared with a closed-form reference computed at 40 digits, with tolerances "
    "graded by the documented conditioning (pole spacing times h, eigenvector condition, cut-off models), "
    "plus the equation-of-motion residual.",
    "Trusts mpmath.expm; SolveUnc's uncoupled path is out of scope below x = 1e-3 (property statement); "
    "repeated eigenvalues are not generated for the complex-eigen path (documented limitation); physical "
    "forms carry a cond(Phi)^2 factor because the solver sees rounded transformed matrices.", "3/C01")
CHECKS["C20"] = (
    "Hypothesis-seeded (p, c, n, r) cases incl. textbook values, exact ties and corners; oracles: "
    "non-central t CDF by its defining integral (mpmath.quad), own chi-square/normal quantiles, exact "
    "integer binomial tails; monotonicity / limit / mirror metamorphic relations; broadcast vs scalar",
    "Generated-input search: ksingle must satisfy nct_cdf(sqrt(n) k; n-1, sqrt(n) z_p) = c with the CDF "
    "evaluated independently from its defining integral at 25 digits; kdouble must solve its documented "
    "coverage equations; both increase with p and c and approach the normal quantile as n grows; "
    "order_stats answers for r, c, p, n are checked against exact binomial tails (returned integer "
    "extremal, neighbour fails, ties accept either) and round-tripped; array arguments must equal "
    "element-wise scalar calls.",
    "Domain limited to where scipy's nct.ppf is itself accurate (n <= 2000, p, c in [1e-3, 1-1e-5]); "
    "'from above' is checked for p >= 0.5 (false for p < 0.5 by symmetry; the mirror relation is checked "
    "instead).", "3/C20")
CHECKS["C18"] = (
    "exhaustive enumeration of set-expression pairs on tables containing every base set + Hypothesis "
    "USET tables / DOF requests / matrices; oracle = independent set-lattice model and brute-force "
    "definitions of the locate helpers",
    "Generated-input search: every ordered (major, minor) pair of documented set names and '+' "
    "expressions is checked exhaustively on USET tables holding every base set (and on tables lacking "
    "one), random tables built by addgrid/make_uset (per-grid letters, per-DOF 6-letter strings, scalar "
    "points, user sets) are checked for the partition identities, mksetpv/mkdofpv/expanddof are compared "
    "with a plain-Python set model, and the locate helpers are compared with brute-force definitions on "
    "matrices with deliberate duplicates, +-0.0 and index vectors of every shape.",
    "Trusts refs/setlattice.py (transcribed from the documented hierarchy). Docstrings are read literally; "
    "behaviours they leave open (which duplicate is returned, ...) are not demanded.", "3/C18")
CHECKS["C19"] = (
    "Hypothesis-generated specs / band scales / signals / time vectors; oracles: mpmath closed-form segment "
    "areas, own log-log interpolation, direct band-overlap sums, rigorous Kaiser-sinc kernel error bound, "
    "brute-force nearest/previous-sample acceptance sets; additivity / constant / retention metamorphics",
    "Generated-input search: area equals the closed-form integral of the log-log interpolation (incl. the "
    "s = -1 log form) and is additive under inserted break points; interp reproduces the spec and is zero "
    "outside; rescale preserves the mean square of every output band (direct overlap sums); resample "
    "returns ceil(n p/q) samples at positions k q/p, reproduces constants, retains original samples when "
    "upsampling and meets a first-principles kernel error bound on band-limited signals; fixtime returns an "
    "exactly uniform time base whose samples come from the acceptance set of nearest (or previous) input "
    "samples, with drop-outs, gaps, shifts, duplicates and unsorted input.",
    "Trusts mpmath and the derived kernel bound; docstrings are the contract (ties/duplicate times accept "
    "any member of the acceptance set; base= alignment checked as documented).", "3/C19")
CHECKS["C02"] = (
    "Hypothesis-generated modal systems (rb/el/rf, viscous + hysteretic damping, complex mass) in diagonal, "
    "non-proportional and physically coupled forms x frequency vectors incl. 0 Hz and near-resonance points "
    "x every ordered incrb subset x rf_disp_only; reference = own dense complex solve per frequency; "
    "differential SolveUnc vs FreqDirect; solvepsd vs own sum/trapezoid",
    "Generated-input search: d, v, a of SolveUnc.fsolve and FreqDirect.fsolve are compared per frequency and "
    "row group (rigid-body, elastic, residual-flexibility) with an independent dense solution of the "
    "dynamic-stiffness equation, the rigid-body relations a = F/m, v = a/(iW), d = -a/W^2 and the static rf "
    "solution, with zeroing exactly as incrb / rf_disp_only say; the equation residual and v = iW d, "
    "a = -W^2 d are checked on the returned arrays; solvepsd is recomputed from reference FRFs through random "
    "DRM quadruples with an own trapezoid rule.",
    "Tolerance 2000*eps*cond(H(W)) (x eigenvector condition for the coupled path, x cond(Phi)^2 and the "
    "dynamic amplification for physical forms); undamped resonances kept 1e-3 away; exactly critical damping "
    "excluded where the complex-eigen path is used; known finding F3 (damping of rb-classified modes "
    "ignored) excluded by signature.", "3/C02")
CHECKS["C14"] = (
    "Hypothesis-generated chains of CORD2R/C/S systems, grids, reference points, RBE3 definitions; oracle = "
    "independent coordinate-system / rigid-body / weighted-least-squares RBE3 model (refs/coordsys.py); "
    "round-trip and rigid-motion metamorphics",
    "Generated-input search: systems of depth 1..5 with any type mix are resolved by an independent "
    "implementation written from the CORD2x definition; addgrid locations and stored frames, "
    "mkusetcoordinfo/build_coords, getcoordinates (point identity across systems), rbgeom_uset row blocks "
    "in each grid's own displacement system, rbgeom/rbmove/rbcoords consistency, formrbe3 reproduction of "
    "the six rigid motions (with and without UM lists) and replace_basic_cs (distances and relative frame "
    "orientations preserved) are compared with it.",
    "Grids are kept away from the polar singularities of their input and output systems (as the property "
    "quantifies); rbe3 cases whose m-set choice is numerically singular (cond > 1e7) are skipped and counted.",
    "3/C14")
CHECKS["C08"] = (
    "model-based history testing: Hypothesis generates systems and send histories (advance / redo / jump back / "
    "add-on / get_f2x probes) against a model of the interface state; oracle = fresh batch tsolve on the force "
    "history in effect, compared after every send and at finalize; get_f2x vs measured unit add-on response",
    "Generated-input search over histories for five solver families (SolveUnc real-uncoupled, complex-eigen, "
    "cd_as_force, SolveCDF, SolveExp2), order 0/1, every contiguous rb|el|rf block order, m None/1-D/2-D and "
    "zero/random/static initial conditions. After every send the caller-visible d, v (up to the highest valid "
    "step) and the force record must equal a fresh batch solution of the force history currently in effect; "
    "finalize must equal the batch d, v, a; get_f2x columns must equal the change produced by unit add-ons.",
    "The batch solvers themselves are decided by C01/C17; interspersed partitions and pre_eig are documented "
    "limitations of the generator interface and are not generated.", "3/C08")
CHECKS["C17"] = (
    "Hypothesis-generated systems (diagonal/full, singular mass, rf, nonlinear terms, any step size); oracle = "
    "literal dense transcription of the documented Newmark recurrence and of the documented CDF equations "
    "(per-mode coefficients from 40-digit exact one-mode maps); convergence ladders against an exact "
    "solution; boundedness; bit-identity with SolveUnc for diagonal damping",
    "Generated-input search: SolveNewmark histories (d, v, a and the z outputs of nonlinear terms) must equal "
    "an independent transcription of the documented three-point recurrence with its start-up and extrapolated "
    "last step, for diagonal and full matrices, massless DOF, rf partitions and steps from 1e-4 to 3; "
    "SolveCDF / cd_as_force must equal a dense per-step solution of the documented equations (1)-(2); on "
    "h, h/2, h/4, h/8 ladders the error against the exact solution of sinusoidally forced systems must "
    "shrink with observed order >= 0.9 (Newmark, inconsistent start), >= 1.8 (consistent start, CDF); free "
    "decay of damped systems must stay within the energy bound for any step; with diagonal damping SolveCDF "
    "must be bit-identical to SolveUnc.",
    "Explicit nonlinear terms that diverge in the reference itself are out of domain; convergence orders are "
    "asserted with a margin below the theoretical 1 and 2.", "3/C17")
CHECKS["C09"] = (
    "schedule-forcing differential test: Hypothesis cases + exhaustive stype x ic x getresp x time grid; "
    "per-task delays and completion tickets injected by replacing the module-level worker functions; oracle = "
    "bit-identity of every output with the parallel='no' result",
    "Generated-input search over signals, frequency vectors, all stype/ic/peak/time/getresp options, worker "
    "counts 1..16 and forced completion orders (reverse, random, straggler) for srs and fdepsd: every array, "
    "DataFrame, Series and scalar of the parallel result must be bit-identical (values, dtype, shape, index) "
    "to the serial result. The observed completion order of every case is recorded (non-trivial only if it "
    "differs from task order with >= 2 workers).",
    "Completion orders are sampled, not enumerated; relies on the fork start method to carry the wrappers and "
    "their shared ticket counter into the pool workers (no source hook needed).", "3/C09")
CHECKS["C13"] = (
    "Hypothesis-generated id lists (runs + singletons), tables, SETs, DMIG matrices (forms 1/2/6/9, types 1-4, "
    "grid/scalar points, partial DOF), GRID/CORD2x chains and USET tables; writer -> reader round-trip oracle "
    "with a field-precision model",
    "Generated-input search: every bulk-data writer is paired with its reader (wtdmig/rddmig, wtgrids/rdgrids, "
    "wttabled1/rdtabled1, wtset/rdsets, wtspoints/rdspoints, wtcsuper/rdcsupers, wtextrn/rdextrn, "
    "wtcoordcards/rdcord2cards, uset2bulk/bulk2uset) over lists of every length mod 8 / mod 4, "
    "THRU-compressible runs, wrapped SET lines, tables of 1..n points in both field widths and values across "
    "the representable range; identifiers, order, DOF labels and values (to the precision of the written "
    "format) must come back.",
    "Values are restricted to those the written format represents in its field; DMIG matrices are exactly "
    "symmetric or clearly unsymmetric (the writer's allclose symmetry test is a documented design choice).",
    "3/C13")
CHECKS["C16"] = (
    "model-based testing over update/case/event histories generated by Hypothesis; oracle = brute-force "
    "envelope over the stored per-case responses with a validity predicate for ties, and an independent "
    "transcription of the documented apply_uf table",
    "Generated-input search: sequences of cla.extrema/maxmin updates (ties, NaNs, one- and two-column data, "
    "with/without abscissae) and full time/frf/psd data recovery through DR_Def/DR_Event/DR_Results over 1..6 "
    "cases in random order, then form_extreme/merge over 1..3 events with random case_order: maxima, minima, "
    "case labels and abscissae (any attaining case is accepted on ties), per-case columns, histories and SRS "
    "envelopes are compared with brute force; apply_uf is compared with a transcription of its documented "
    "table over histories of calls sharing one cache, checking independence of cache reuse and call order and "
    "that inputs are not modified.",
    "Per-case SRS values are taken from pyyeti.srs (decided by C03); only the bookkeeping is decided here. "
    "Re-labelling of split() parts (documented to carry maxcase=None) is outside the property.", "3/C16")
CHECKS["C15"] = (
    "Hypothesis-generated source/load spring-mass-damper networks, interface sets, boundary-definition forms "
    "(recovery matrix on physical or modal model, partition vector on an own Craig-Bampton form), frequency "
    "vectors and external forces; oracle = dense solution of the physically coupled system assembled by the "
    "check, independently computed accelerance, algebraic identities",
    "Generated-input search: ntfl's interface acceleration and force must equal those of the directly coupled "
    "system (shared interface DOF merged, dense complex solve per frequency); SAM and LAM must equal the "
    "inverse of independently computed boundary accelerances, TAM = SAM + LAM exactly, R = diag(TAM^-1 SAM), "
    "apparent-mass inputs must give the same answer as model inputs, and the apparent mass must tend to the "
    "total rigid mass at vanishing frequency (exactly at 0 Hz on the cbtf route).",
    "Scalar (1-D) networks with one rigid-body mode; tolerance 1000*eps*cond of the dynamic stiffness / "
    "accelerance matrices involved.", "3/C15")
CHECKS["C03"] = (
    "exhaustive stype x ic x peak x time grid + Hypothesis signals/options; reference = exact response of the "
    "damped oscillator to the linearly interpolated input (augmented-matrix exponential, mpmath cross-check) "
    "with the documented initial-condition rules, windows and peak statistics re-implemented; metamorphic "
    "relations; closed forms for srs_frf / vrs",
    "Generated-input search: response histories and spectrum values of srs (all six response types, four "
    "initial-condition rules, six peak statistics, three time windows, the whole 432-combination grid "
    "enumerated) are compared with an independent exact reference, tolerance graded by the conditioning "
    "eps*(N + (w/sr)^-3) of the ramp-invariant coefficients; abs = max(pos, neg), total vs primary/residual, "
    "pvelo = w*reldisp, pacce = w^2*reldisp, eqsine = srs/Q, column-permutation / packaging invariance "
    "(bit-exact) and scaling are checked as relations; the roll-off contract, srs_frf and vrs (incl. Miles) "
    "against closed forms.",
    "sr/fn <= 2000 (property domain); parallel='no' (C09 decides the parallel path); known finding F26 "
    "(linear roll-off with up-sampling factor >= 3) excluded by signature and counted.", "3/C03")
CHECKS["C10"] = (
    "exhaustive small-alphabet signals + Hypothesis signal grammar (plateaus, sub-tolerance drifts, monotone "
    "runs), cycle tables and bin specs, fdepsd option combinations; oracles: validity predicate and exact "
    "plateau reference for reversal selection, differential default vs accelerated findap (the numba branch "
    "extracted with ast and run un-jitted), brute-force bin placement, independent oscillator response + ASTM "
    "rainflow + Rayleigh damage reference for fdepsd, scaling metamorphics",
    "Generated-input search: both findap definitions must start with the first sample, alternate strictly, "
    "reach the global extremes within the stated tolerance and agree with each other (and with an exact "
    "reference on signals without sub-tolerance steps); binify must conserve counts and place every cycle in "
    "its documented half-open bin; fdepsd outputs must satisfy the stated invariants (monotone cumulative "
    "counts, count[:,0] = total cycles from an independent response + rainflow, Amax <= SRS, G2 >= G1, "
    "di_sig = sum amp^b count, var_test^(b/2) di_test = di_sig, quadratic scaling).",
    "numba is absent: the accelerated definition is executed un-jitted from source (F7, the former known finding "
    "on signals with non-zero sub-tolerance steps, is repaired in /repo and that class is held to the full "
    "predicates).",
    "3/C10")

CHECKS["C11"] = (
    "Hypothesis-generated logical contents x physical encodings written by an independent byte-level encoder "
    "(refs/op4enc.py, refs/op2enc.py; no pyyeti code) + enumerated 2999/3000/3001 cut-over cases; decode "
    "oracle = the encoder's logical content and byte bookkeeping (positions, directory, skip targets)",
    "Generated-input search: OUTPUT4 files (binary single/double x 32/64-bit keys x both byte orders, ASCII E/D "
    "exponents with announced widths 3E23.16 .. 5E16.9, dense / bigmat / nonbigmat with strings split at "
    "arbitrary places, null columns, negative row counts, trimmed / untrimmed final records) and OUTPUT2 files "
    "(label header or not, 32/64-bit, both byte orders, matrices and tables with records split into 1..4 "
    "physical parts) are produced by an encoder written from the format descriptions; op4.load/read/dir/"
    "listload in dense, sparse, auto and callable modes and every namelist subset, and op2 directory / "
    "rdop2mats / set_position + rdop2nt / rdop2matrix / skipop2matrix / rdop2record(form, N) / skipop2record "
    "/ rdop2tabheaders must return exactly the encoded content and leave the file at the encoder's next offset.",
    "Trusts the encoders' reading of the format (a self-test part decodes the shipped Nastran sample files "
    "with the encoder's own layout description); ASCII numbers use two-digit exponents; 64-bit double "
    "precision layouts follow the reader's documentation (Nastran writes mtype 1/3 there).", "3/C11")

CHECKS["C06"] = (
    "Hypothesis-generated free 3-D structures (refs/cbmodel.py: random joints, lumped masses, own Craig-Bampton "
    "reduction) x boundary sets / orders / reference DOF / output systems / unit conversions / DOF layouts; "
    "oracle = analytic rigid-body geometry and lumped-mass properties of the unreduced structure, own "
    "permutation and dimensional analysis, dense solve of the documented cbtf equations; seeded faults "
    "(grounding spring, moved grid) must show up in the quantities the report prints",
    "Generated-input search: cbcheck's rbs/rbg/rbe are compared with analytic rigid-body vectors of the "
    "generated structure, the 6x6 masses, cg, inertia and principal values with the lumped data, K rb with "
    "zero, effective mass with (Phi^T M rb)^2 and its sum plus the boundary residual with the total mass; "
    "returned m, k, uset with an own permutation and unit factors; the printed tables are parsed for the "
    "documented checks; grounded or geometrically inconsistent models must print the corresponding "
    "non-zero sums / FAIL. cbtf is checked against both block rows of its documented equations and an own "
    "dense solve for any b-set order, damping form, 0 Hz and near-resonance frequencies; cgmass against the "
    "documented 6x6; cbconvert/cbreorder as inverse pairs, against re-built models in the new units and on "
    "recovered base-drive responses.",
    "Elastic free-free frequencies >= 1 Hz (cbcheck's shift-invert eigensolver is centred at 1 (rad/s)^2); "
    "n_freefree_modes >= 25; tolerances 1e-7 (geometry/mass), 1e-4 (eigensolution-based, ARPACK start vector "
    "is random), 1e-10 (K rb) on dimensionless quantities.", "3/C06")

NOT_APPLICABLE = {
}


def main():
    props = [json.loads(l) for l in (VERIF / "properties.jsonl").read_text().splitlines() if l.strip()]
    checks = []
    # input classes every check generates where they apply (grown out of eight rounds of independently seeded
    # breaking changes, DESIGN.md 7.7)
    global COMMON_CLASSES
    COMMON_CLASSES = (
        " Generated as a matter of course where the entry points allow it: every documented form of an argument "
        "(containers, dtypes incl. integer arrays, memory layouts, labelled data, partition vectors as list / array "
        "/ mask / other listing order, None versus explicit zeros), one unit factor over many decades on everything "
        "that scales linearly, lengths beyond 4096 (histories, sweeps, card lists, columns), values exactly at "
        "documented thresholds, arguments bit-compared after the call, results overwritten in place before the "
        "next call, solver / file objects reused, and an enumerated part `defaults` (a call that leaves a keyword "
        "out equals the call with the documented default).")
    for p in props:
        pid = p["id"]
        if pid not in CHECKS:
            continue
        tech, text, note, ref = CHECKS[pid]
        text = text + COMMON_CLASSES
        checks.append(dict(
            property_id=pid,
            quick_cmd=f"./vcheck {pid} quick",
            thorough_cmd=f"./vcheck {pid} thorough",
            evidence_file=f"/verif/evidence/{pid}.json",
            replay_cmd_template="./vcheck --replay {path}",
            engine="pbt",
            level_claimed=dict(category="exploration", text=text, design_ref=f"DESIGN.md section {ref}"),
            level_note=note,
            technique=tech))
    na = [dict(property_id=p["id"], reason=NOT_APPLICABLE.get(
        p["id"], "check not built yet in this round (planned: DESIGN.md section 3); nothing is claimed for it"))
        for p in props if p["id"] not in CHECKS]
    man = dict(
        version=1,
        setup_cmd="./setup.sh",
        hooks=dict(guard="PYYETI_VERIF", enable="none needed: checks import the working tree of /repo "
                   "(VERIF_REPO) and compile rainflow/c_rain.c from it; no source hooks exist",
                   baseline_off_cmd="cd /repo && /venv/bin/python -m pytest -q -p no:cacheprovider --timeout=900 "
                   "--continue-on-collection-errors",
                   source_commits=[], add_only=True),
        engines=[dict(name="pbt", path="run_check.py", serves_properties=[c["property_id"] for c in checks],
                      kind_free_text="Hypothesis-driven generated-input search + exhaustive small-domain "
                      "enumeration against independent reference oracles (refs/), sharded over 16 processes")],
        checks=checks,
        notes="Every check: exit 0 held / 1 VIOLATION / 2 harness error. Known findings are listed in "
              "known_findings.json and printed as KNOWN-FINDING lines.",
        not_applicable=na)
    (VERIF / "MANIFEST.json").write_text(json.dumps(man, indent=1) + "\n")
    import jsonschema
    jsonschema.validate(man, json.loads(Path("/root/.vp/MANIFEST.schema.json").read_text()))
    for c in checks:
        ev = VERIF / "evidence" / f"{c['property_id']}.json"
        if ev.exists():
            jsonschema.validate(json.loads(ev.read_text()),
                                json.loads(Path("/root/.vp/EVIDENCE.schema.json").read_text()))
        else:
            print("missing evidence", ev)
    print("MANIFEST ok:", len(checks), "checks,", len(na), "not_applicable")


if __name__ == "__main__":
    main()
